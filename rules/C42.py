"""C42 The subprocess pool runs every command once, within its bounds."""
import ast

from sa.core import AnalysisError, norm
from sa.pat import AnyOf

TECHNIQUE = ('static analysis: sibling agreement on how a queued / running '
             'entry leaves the pool (every removal reaches the exit routine '
             'with that entry\'s callbacks; pack/unpack positions of the entry '
             'tuples agree), guard atoms of the size bound and of the '
             'stopping refusal, exactly-one-callback shape of the exit '
             'routine')

CLAUSES = (
    'Decided: every entry taken from the queue or the running list reaches '
    '_proc_exit / _run_command_exit / _run_command_init together with the '
    'callback fields unpacked from that same entry (put_command, process and '
    'terminate agree); the queue and running-list entries are packed and '
    'unpacked in the same field order; a process is added to the running list '
    'only while fewer than `size` are running and only if it was started; '
    'job-submission commands are refused once stopping (in put_command and '
    'in process); a timed-out process is killed and exits once; the exit '
    'routine calls callback_255 or else callback, and exactly one of them. '
    'the stopping flag is read after the reap phase of process(). '
    'Not decided: timing of polls and kills.')

SP = 'subprocpool'
Q_FIELDS = ['ctx', 'bad_hosts', 'callback', 'callback_args', 'callback_255',
            'callback_255_args']
R_FIELDS = ['proc'] + Q_FIELDS


def _kw(n):
    return {k.arg: norm(k.value) for k in n.keywords}


def check(c):
    pr = c.func(SP, 'SubProcPool.process')
    pc = c.func(SP, 'SubProcPool.put_command')
    tm = c.func(SP, 'SubProcPool.terminate')
    # ---- pack / unpack agreement
    packs_q = [n for n in c.calls(pc, 'append')
               if norm(n.func.value) == 'self.queuings']
    c.exactly('C42.tuple-order', 'queue entry pack', len(packs_q), 1)
    for n in packs_q:
        got = [norm(e) for e in n.args[0].elts]
        c.ob('C42.tuple-order', c.key(n, pc)[:100] + ' field order', got ==
             Q_FIELDS, c.where(n, pc), str(got))
    un_q = [s for s in c.idx.walk(pr.node) if isinstance(s, ast.Assign)
            and norm(s.value) == 'self.queuings.popleft()']
    c.exactly('C42.tuple-order', 'queue entry unpack', len(un_q), 1)
    for s in un_q:
        got = [norm(e) for e in s.targets[0].elts]
        c.ob('C42.tuple-order', c.key(s, pr)[:100] + ' field order', got ==
             Q_FIELDS, c.where(s, pr), str(got))
    packs_r = [n for n in c.calls(pr, 'append') if norm(n.func.value) in (
        'self.runnings', 'runnings')]
    c.floor('C42.tuple-order', 'running entry packs', len(packs_r), 2)
    for n in packs_r:
        got = [norm(e) for e in n.args[0].elts]
        c.ob('C42.tuple-order', c.key(n, pr)[:100] + ' field order', got ==
             R_FIELDS, c.where(n, pr), str(got))
    un_r = [s for s in c.idx.walk(pr.node) if isinstance(s, ast.Assign)
            and norm(s.value) == 'running']
    for s in un_r:
        got = [norm(e) for e in s.targets[0].elts]
        c.ob('C42.tuple-order', c.key(s, pr)[:100] + ' field order', got ==
             R_FIELDS, c.where(s, pr), str(got))
    c.floor('C42.tuple-order', 'running entry unpack', len(un_r), 1)

    # ---- every removal carries its callback
    full = {'bad_hosts': 'bad_hosts', 'callback': 'callback',
            'callback_args': 'callback_args', 'callback_255': 'callback_255',
            'callback_255_args': 'callback_255_args'}
    exits = []
    for f in (pr, pc, tm):
        for n in c.calls(f, '_run_command_exit') + c.calls(f, '_proc_exit'):
            exits.append((f, n))
    c.floor('C42.callback-kept', 'exit calls in process / put_command / '
            'terminate', len(exits), 5)
    for f, n in exits:
        kw = _kw(n)
        need = dict(full)
        if n.func.attr == '_proc_exit' and c.holds(n, 'ctx.timeout < time()'):
            # timed-out command: plain callback (no 255 retry of a kill)
            need = {k: v for k, v in full.items()
                    if not k.startswith('callback_255')}
        missing = sorted(k for k, v in need.items() if kw.get(k) != v)
        c.ob('C42.callback-kept', c.key(n, f)[:120] + ' passes the entry\'s '
             'callbacks', not missing, c.where(n, f),
             'all callback fields passed' if not missing else
             f'{n.func.attr}() is called without {missing}: the command '
             'leaves the pool and its callback is never invoked (the caller '
             'waiting on it is never told)')
    rci = c.calls(pr, '_run_command_init')
    for n in rci:
        got = [norm(a) for a in n.args]
        c.ob('C42.callback-kept', c.key(n, pr)[:100] + ' started with its '
             'callbacks', got == Q_FIELDS, c.where(n, pr), str(got))
    # every popped queue entry is either refused (exit) or started
    for s in un_q:
        ok = c.cfg(pr).postdominated_by(s, lambda x: any(
            isinstance(y, ast.Call) and isinstance(y.func, ast.Attribute)
            and y.func.attr in ('_run_command_exit', '_run_command_init')
            for y in ast.walk(x)) and not isinstance(x, (ast.If, ast.While)))
        c.ob('C42.callback-kept', c.key(s, pr)[:100] + ' then exit or init',
             ok, c.where(s, pr), '')
    dr = [s for s in c.idx.walk(tm.node) if isinstance(s, ast.Assign)
          and 'self.queuings.popleft()' in norm(s.value)]
    c.floor('C42.callback-kept', 'terminate drains the queue', len(dr), 1)
    # process() refills free slots from the queue: on termination it may run
    # only once the queue is empty, and the pool is closed first -- otherwise
    # commands are started while stopping and never reaped or called back
    cfgt = c.cfg(tm)
    drains = [w for w in c.idx.walk(tm.node) if isinstance(w, ast.While)
              and norm(w.test) == 'self.queuings']
    c.floor('C42.terminate-order', 'drain loop `while self.queuings`',
            len(drains), 1)
    procs = c.find(tm, 'self.process()')
    c.floor('C42.terminate-order', 'self.process() in terminate',
            len(procs), 1)
    for p in procs:
        for w in drains:
            ok = cfgt.dominated_by(c.idx.stmt_of(p), lambda s, w=w: s is w)
            c.ob('C42.terminate-order', c.key(p, tm) + ' only after the '
                 'queue is drained', ok, c.where(p, tm), '' if ok else
                 'process() runs with commands still queued: it starts them '
                 'although the pool is terminating; nothing reaps them or '
                 'calls them back')
        c.pre('C42.terminate-order', tm, p, c.matches('self.close()'),
              'self.close()')

    # ---- bounds
    for n in [x for x in packs_r if norm(x.func.value) == 'self.runnings']:
        c.guard('C42.size-bound', n, [
            'len(self.runnings) < self.size', 'proc is not None'], pr)
    loops = [w for w in c.idx.walk(pr.node) if isinstance(w, ast.While)]
    ok = any(c.find(w.test, 'self.queuings and len(self.runnings) < '
                    'self.size') for w in loops)
    c.ob('C42.size-bound', f'{pr.fq} :: starts commands only while below '
         'size', ok, c.where(pr.node, pr), '')
    upd = [s for s in c.idx.walk(pr.node) if isinstance(s, ast.Assign)
           and norm(s.targets[0]) == 'self.runnings[:]']
    c.ob('C42.size-bound', f'{pr.fq} :: running list rebuilt from the still '
         'running entries', len(upd) == 1 and norm(upd[0].value) ==
         'runnings', c.where(pr.node, pr), '')
    # ---- stopping refusal
    # the stopping flag used by the launch loop is read after the reap phase
    # (a callback run while reaping may be what requests the stop)
    reads = c.find(pr, 'self._is_stopping()')
    c.floor('C42.stopping', 'read of the stopping flag in process()',
            len(reads), 1)
    for n in reads:
        c.pre('C42.stopping', pr, n, lambda s: isinstance(s, ast.Assign)
              and norm(s.targets[0]).startswith('self.runnings'),
              'the reap phase (self.runnings[:] = ...)')
    ref_p = [n for _f, n in exits if _f is pr and n.func.attr ==
             '_run_command_exit']
    c.floor('C42.stopping', 'refusal in process()', len(ref_p), 1)
    for n in ref_p:
        c.guard('C42.stopping', n, ['stopping',
                                    'ctx.cmd_key == self.JOBS_SUBMIT'], pr)
    for n in rci:
        c.guard('C42.stopping', n, [AnyOf(
            '!stopping', '!(ctx.cmd_key == self.JOBS_SUBMIT)')], pr)
    ref_c = [n for _f, n in exits if _f is pc]
    for n in ref_c:
        c.guard('C42.stopping', n, [AnyOf(
            'self.closed', 'self._is_stopping()',
            'ctx.cmd_key == self.JOBS_SUBMIT')], pc)
    par = [n for n in c.idx.walk(pc.node) if isinstance(n, ast.If)]
    ok = bool(par) and c.case_covered(par[0].test, [
        'self._is_stopping()', 'ctx.cmd_key == self.JOBS_SUBMIT']) and \
        c.case_covered(par[0].test, ['self.closed'])
    c.ob('C42.stopping', f'{pc.fq} :: refuses when closed, or stopping and '
         'JOBS_SUBMIT', ok, c.where(pc.node, pc), '')
    for n in packs_q:
        c.guard('C42.stopping', n, ['!self.closed'], pc)
    # ---- timeout
    to = [n for _f, n in exits if _f is pr and n.func.attr == '_proc_exit'
          and c.holds(n, 'ctx.timeout < time()')]
    c.exactly('C42.timeout', 'timed-out exit', len(to), 1)
    for n in to:
        c.pre('C42.timeout', pr, n, c.matches('_killpg(proc, SIGKILL)'),
              'kill of the process group')
        from rules._shared import followed_by
        c.ob('C42.timeout', c.key(n, pr)[:100] + ' then continue (not '
             're-queued)', followed_by(c, c.idx.stmt_of(n), ast.Continue),
             c.where(n, pr), '')
    # ---- exactly one callback
    ex = c.func(SP, 'SubProcPool._run_command_exit')
    rcb = [n for n in c.calls(ex, '_run_callback')]
    c.exactly('C42.one-callback', '_run_callback sites', len(rcb), 3)
    c255 = [n for n in rcb if norm(n.args[0]) == 'callback_255']
    cb = [n for n in rcb if norm(n.args[0]) == 'callback']
    c.exactly('C42.one-callback', 'callback_255 site', len(c255), 1)
    c.exactly('C42.one-callback', 'callback sites', len(cb), 2)
    fb = [n for n in cb if c.holds(n, 'res is False')]
    c.exactly('C42.one-callback', 'fallback to callback only if '
              'callback_255 was not callable', len(fb), 1)
    els = [n for n in cb if n not in fb]
    for n in els:
        c.guard('C42.one-callback', n, [
            '!(cls.ssh_255_fail(ctx) or cls.rsync_255_fail(ctx, platform) is '
            'True)'], ex) if False else None
        # the plain site is the else-arm of the 255 test
        par_ = c.idx.parent[id(c.idx.stmt_of(n))]
        ok = isinstance(par_, ast.If) and any(
            c.idx.stmt_of(n) is s for s in par_.orelse) and any(
            c.idx.stmt_of(x) in ast.walk(par_) or True for x in c255)
        c.ob('C42.one-callback', c.key(n, ex) + ' in the non-255 arm', ok,
             c.where(n, ex), '')
    inner = c.func(SP, 'SubProcPool._run_command_exit._run_callback')
    calls = [n for n in c.idx.walk(inner.node) if isinstance(n, ast.Call)
             and norm(n.func) == 'callback']
    c.exactly('C42.one-callback', 'callback(ctx, *args) in _run_callback',
              len(calls), 1)
    rf = [r for r in c.idx.walk(inner.node) if isinstance(r, ast.Return)
          and norm(r.value) == 'False']
    for r in rf:
        c.guard('C42.one-callback', r, ['!callable(callback)'], inner)


VARIANTS = [
    ('stopping-read-before-reaping', 'cylc/flow/subprocpool.py',
     '''        # Handle child processes that are done
        runnings = []''',
     '''        stopping = self._is_stopping()
        # Handle child processes that are done
        runnings = []''', 'C42.stopping'),
    ('oversize', 'cylc/flow/subprocpool.py',
     '        while self.queuings and len(self.runnings) < self.size:',
     '        while self.queuings and len(self.runnings) <= self.size:',
     'C42.size-bound'),
    ('submit-while-stopping', 'cylc/flow/subprocpool.py',
     '            if stopping and ctx.cmd_key == self.JOBS_SUBMIT:',
     '            if stopping and ctx.cmd_key == self.JOBS_KILL:'
     if False else
     '            if stopping and ctx.cmd_key != self.JOBS_SUBMIT:',
     'C42.stopping'),
    ('swap-callback-args', 'cylc/flow/subprocpool.py',
     '''                    self.runnings.append([
                        proc, ctx, bad_hosts, callback, callback_args,
                        callback_255, callback_255_args
                    ])''', '''                    self.runnings.append([
                        proc, ctx, bad_hosts, callback, callback_args,
                        callback_255_args, callback_255
                    ])''', 'C42.tuple-order'),
    ('both-callbacks', 'cylc/flow/subprocpool.py',
     '''            res = _run_callback(callback_255, callback_255_args)
            if res is False:
                _run_callback(callback, callback_args)''',
     '''            _run_callback(callback_255, callback_255_args)
            _run_callback(callback, callback_args)''', 'C42.one-callback'),
    ('timeout-no-kill', 'cylc/flow/subprocpool.py',
     '''                if _killpg(proc, SIGKILL):
                    err_xtra = (
                        f"\\nkilled on timeout ({self.proc_pool_timeout})"
                    )
                self._proc_exit(''', '''                self._proc_exit(''',
     'C42.timeout'),
    ('F5-regression', 'cylc/flow/subprocpool.py',
     '''                ctx.ret_code = self.RET_CODE_WORKFLOW_STOPPING
                self._run_command_exit(
                    ctx, bad_hosts=bad_hosts,
                    callback=callback, callback_args=callback_args,
                    callback_255=callback_255,
                    callback_255_args=callback_255_args
                )
            else:
                proc = self._run_command_init(''',
     '''                ctx.ret_code = self.RET_CODE_WORKFLOW_STOPPING
                self._run_command_exit(ctx)
            else:
                proc = self._run_command_init(''', 'C42.callback-kept'),
    ('closed-accepts', 'cylc/flow/subprocpool.py',
     '        if (self.closed or self._is_stopping() and',
     '        if (self._is_stopping() and', 'C42.stopping'),
    ('terminate-process-before-drain', 'cylc/flow/subprocpool.py',
     '''        self.close()
        # Drain queue''', '''        self.close()
        self.process()
        # Drain queue''', 'C42.terminate-order'),
]

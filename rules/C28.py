"""C28 Group trigger runs each member once, honouring in-group order."""
import ast

from sa.core import AnalysisError, norm
from sa.pat import AnyOf, StatusNotIn, StatusCovers

TECHNIQUE = ('static analysis: guard atoms of the two trigger sites of the '
             'group-trigger command, membership polarity of the in-group / '
             'off-group prerequisite sets, CFG order of remove -> release -> '
             'flush, guard atoms of queue_or_trigger and of the consumer of '
             'tasks_to_trigger_now')

CLAUSES = (
    'Decided: an active group-start member (no in-group triggers) is '
    'triggered only if it has no live job (not preparing/submitted/running; '
    'live ones only merge flows); the removed members are re-created with '
    'exactly their off-group prerequisites satisfied (membership test `not in '
    'group_ids`) and a member with in-group prerequisites is not triggered '
    'directly; removal is followed by release of held members and a DB flush; '
    'queue_or_trigger records a task for immediate submission only if it is '
    'not (or no longer) queued; the scheduler consumes that set even when '
    'paused but not when stopping; groups are the connected components of the '
    'in-group prerequisite relation. '
    'Holds are lifted for resumed and for inactive group members. '
    'Not decided: each member runs exactly '
    'once for every subset and state.')

CM = 'commands'
TP = 'task_pool'


def check(c):
    ft = c.func(CM, '_force_trigger_tasks')
    qs = c.find(ft, 'schd.pool.queue_or_trigger(_t)')
    c.exactly('C28.trigger-sites', 'queue_or_trigger sites', len(qs), 2)
    act = [n for n in qs if norm(n.args[0]) == 'itask']
    new = [n for n in qs if norm(n.args[0]) == 'jtask']
    c.exactly('C28.trigger-sites', 'active start-task trigger', len(act), 1)
    c.exactly('C28.trigger-sites', 're-created start-task trigger',
              len(new), 1)
    for n in act:
        c.guard('C28.live-jobs', n, [StatusNotIn(
            'preparing', 'submitted', 'running')], ft,
            what='tasks with a live job are not re-triggered;')
        # group start test
        ok = False
        for f in c.facts(n):
            if f[0] == 'atom' and not f[2]:
                ac = c.any_condition(f[1])
                if ac and 'itask.tdef.get_triggers(itask.point)' in norm(
                        ac[1]) and norm(ac[0]).endswith('in group_ids'):
                    ok = True
        c.ob('C28.start-tasks', c.key(n, ft) + ' ⟸ no trigger of the task is '
             'in the group', ok, c.where(n, ft), '')
        for pre in ('itask.state.set_all_task_prerequisites_satisfied()',
                    'schd.pool.merge_flows(itask, flow_nums)'):
            c.pre('C28.start-tasks', ft, n, c.matches(pre), pre.split('(')[0])
    # every active member is struck off the "inactive" set, whatever happens
    # to it afterwards (otherwise the re-creation loop builds and triggers a
    # second proxy for a task that is still active): the removal comes before
    # every `continue` of the loop over the active members and before the
    # end of its body
    rem = [n for n in c.calls(ft, 'remove') if norm(n.func.value) == 'inactive'
           ] + [n for n in c.calls(ft, 'discard')
                if norm(n.func.value) == 'inactive']
    c.floor('C28.active-not-recreated', 'inactive.remove(<active member>)',
            len(rem), 1)
    cfgt = c.cfg(ft)
    for n in rem:
        st = c.idx.stmt_of(n)
        loop = st
        while loop is not None and not isinstance(loop, ast.For):
            loop = c.idx.parent.get(id(loop))
        ok = isinstance(loop, ast.For) and norm(loop.iter) == 'active' and \
            norm(n.args[0]) in (f'{norm(loop.target)}.tokens.task',)
        c.ob('C28.active-not-recreated', c.key(n, ft) + ' in the loop over '
             'the active members, for that member', ok, c.where(n, ft), '')
        if not isinstance(loop, ast.For):
            continue
        exits = [x for x in ast.walk(loop) if isinstance(x, ast.Continue)
                 and c.idx.stmt_of(x) is not st] + [loop.body[-1]]
        for x in exits:
            if x is st:
                continue
            okx = cfgt.dominated_by(x, lambda s, st=st: s is st)
            c.ob('C28.active-not-recreated', c.key(x, ft)[:120] +
                 ' after the member is struck off', okx, c.where(x, ft),
                 '' if okx else 'an iteration can end without removing the '
                 'active member from `inactive`: it is re-created and '
                 'triggered although it is still active')
    mfl = [n for n in c.find(ft, 'schd.pool.merge_flows(itask, flow_nums)')
           if c.holds(n, StatusCovers('preparing', 'submitted', 'running'))]
    c.floor('C28.live-jobs', 'live start tasks only merge flows', len(mfl), 1)
    for n in new:
        c.guard('C28.in-group-order', n, ['jtask is not None',
                                          '!in_flow_prereqs'], ft)
        c.guard_only('C28.in-group-order', n, ['jtask is not None',
                                               '!in_flow_prereqs'], ft,
                     stop=_loop(c, n))
    # membership polarity
    sets = {}
    for s in c.idx.walk(ft.node):
        if isinstance(s, ast.Assign) and norm(s.targets[0]) in (
                'prereqs_to_set', 'in_flow_prereqs'):
            sets.setdefault(norm(s.targets[0]), []).append(s.value)
    ok_off = any(isinstance(v, ast.SetComp) and any(
        norm(i) == 'TaskTokens(cycle=key.point, task=key.task) not in '
        'group_ids' for g in v.generators for i in g.ifs)
        for v in sets.get('prereqs_to_set', []))
    c.ob('C28.off-group', f'{ft.fq} :: prereqs_to_set = prerequisites NOT in '
         'the group', ok_off, c.where(ft.node, ft), '')
    ok_in = False
    for v in sets.get('in_flow_prereqs', []):
        ac = c.any_condition(v)
        if ac and norm(ac[0]) == \
                'TaskTokens(cycle=key.point, task=key.task) in group_ids':
            ok_in = True
    c.ob('C28.in-group-order', f'{ft.fq} :: in_flow_prereqs = any '
         'prerequisite IN the group', ok_in, c.where(ft.node, ft), '')
    ptd = [n for n in c.calls(ft, '_set_prereqs_tdef')]
    c.floor('C28.off-group', '_set_prereqs_tdef calls', len(ptd), 2)
    for n in ptd:
        kw = {k.arg: norm(k.value) for k in n.keywords}
        if c.holds(n, 'tdef.is_parentless(icycle, '
                   'cutoff=schd.config.initial_point)'):
            c.ob('C28.off-group', c.key(n, ft)[:100] + ' parentless: all',
                 kw.get('set_all') == 'True', c.where(n, ft), '')
        else:
            c.ob('C28.off-group', c.key(n, ft)[:100] + ' only the listed '
                 'prerequisites', kw.get('set_all') == 'False' and norm(
                     n.args[2]) == 'prereqs_to_set', c.where(n, ft), '')
    # the trigger overrides holds on every group member: the held marks are
    # lifted for the members resumed in place *and* for those not in the pool
    # (a member held while inactive would be re-held when it is respawned)
    rh = c.find(ft, 'schd.pool.release_held_tasks(_)')
    c.floor('C28.hold-override', 'release_held_tasks in the trigger',
            len(rh), 1)
    for n in rh:
        names = {x.id for x in ast.walk(n.args[0])
                 if isinstance(x, ast.Name)}
        # (a local holding the union is followed one step)
        if isinstance(n.args[0], ast.Name):
            for a in ast.walk(ft.node):
                if isinstance(a, ast.Assign) and norm(a.targets[0]) == \
                        n.args[0].id:
                    names |= {x.id for x in ast.walk(a.value)
                              if isinstance(x, ast.Name)}
        c.ob('C28.hold-override', c.key(n, ft)[:100] + ' covers resumed and '
             'inactive members', {'active_to_resume', 'inactive'} <= names,
             c.where(n, ft), f'releases {sorted(names)}')
    # remove -> release -> flush
    rm = c.find(ft, '_remove_matched_tasks(*_)')
    c.exactly('C28.remove-order', '_remove_matched_tasks', len(rm), 1)
    for n in rm:
        c.guard('C28.remove-order', n, ['!(flow == [FLOW_NONE])'], ft)
        c.post('C28.remove-order', ft, n, c.matches(
            'schd.pool.release_held_tasks(_)'), 'release_held_tasks')
        c.post('C28.remove-order', ft, n, c.matches(
            'schd.workflow_db_mgr.process_queued_ops()'),
            'process_queued_ops()')
        for t in new:
            c.ob('C28.remove-order', c.key(n, ft)[:100] + ' before '
                 're-creation', c.cfg(ft).path_exists(
                     c.idx.stmt_of(n), c.idx.stmt_of(t)), c.where(n, ft), '')
    c.always('C28.remove-order', ft, c.matches(
        'schd.pool.release_runahead_tasks()'), 'release_runahead_tasks()')

    # ---- queue_or_trigger
    qt = c.func(TP, 'TaskPool.queue_or_trigger')
    adds = c.find(qt, 'self.tasks_to_trigger_now.add(itask)')
    c.exactly('C28.queue-or-trigger', 'tasks_to_trigger_now.add', len(adds), 1)
    for n in adds:
        c.guard('C28.queue-or-trigger', n, ['!itask.state.is_queued'], qt)
    push = c.find(qt, 'self.task_queue_mgr.push_task_if_limited(itask, '
                  'active)')
    for n in push:
        c.guard('C28.queue-or-trigger', n, ['!itask.state.is_queued'], qt)
    c.floor('C28.queue-or-trigger', 'push_task_if_limited', len(push), 1)
    c.always('C28.queue-or-trigger', qt, lambda n: isinstance(
        n, ast.Assign) and norm(n.targets[0]) == 'itask.is_manual_submit'
        and norm(n.value) == 'True', 'is_manual_submit = True')
    c.always('C28.queue-or-trigger', qt, c.matches(
        'itask.state_reset(TASK_STATUS_WAITING)'), 'reset to waiting')
    rt = c.func('scheduler', 'Scheduler.release_tasks_to_run')
    use = c.find(rt, 'pre_prep_tasks.update(self.pool.tasks_to_trigger_now)')
    c.exactly('C28.consume', 'consume tasks_to_trigger_now', len(use), 1)
    for n in use:
        c.guard('C28.consume', n, ['!self.stop_mode'], rt)
        c.guard_only('C28.consume', n, [
            '!self.stop_mode', 'self.auto_restart_time is None',
            'self.reload_pending is False',
            'self.pool.tasks_to_trigger_now'], rt)
        c.post('C28.consume', rt, n, lambda s: isinstance(
            s, ast.Assign) and norm(s.targets[0]) ==
            'self.pool.tasks_to_trigger_now' and norm(s.value) == 'set()',
            'set cleared')
    # ---- grouping
    ftt = c.func(CM, 'force_trigger_tasks')
    c.floor('C28.grouping', 'get_connected_groups(adjacency)', len(
        c.find(ftt, 'get_connected_groups(adjacency)')), 1)
    ok = any(isinstance(n, ast.SetComp) and any(
        norm(i) == 'prereq_id in matched' for g in n.generators
        for i in g.ifs) for n in c.idx.walk(ftt.node))
    c.ob('C28.grouping', f'{ftt.fq} :: edges = prerequisites that are also '
         'matched', ok, c.where(ftt.node, ftt), '')
    for n in c.calls(ftt, '_force_trigger_tasks'):
        lp = c.idx.parent[id(c.idx.stmt_of(n))]
        c.ob('C28.grouping', c.key(n, ftt)[:80] + ' once per group',
             isinstance(lp, ast.For) and norm(lp.iter) ==
             'get_connected_groups(adjacency)' and norm(
                 n.args[1]) == norm(lp.target), c.where(n, ftt), '')


def _loop(c, n):
    cur = n
    while id(cur) in c.idx.parent:
        cur = c.idx.parent[id(cur)]
        if isinstance(cur, ast.For) and norm(cur.iter) == 'tasks_removed':
            return cur
    return None


VARIANTS = [
    ('inactive-members-stay-held', 'cylc/flow/commands.py',
     '        schd.pool.release_held_tasks({*active_to_resume, *inactive})\n',
     '        schd.pool.release_held_tasks(active_to_resume)\n',
     'C28.hold-override'),
    ('retrigger-live', 'cylc/flow/commands.py',
     '            if itask.state(TASK_STATUS_PREPARING, *TASK_STATUSES_ACTIVE):',
     '            if itask.state(TASK_STATUS_PREPARING):', 'C28.live-jobs'),
    ('trigger-in-group-member', 'cylc/flow/commands.py',
     '        if jtask is not None and not in_flow_prereqs:',
     '        if jtask is not None:', 'C28.in-group-order'),
    ('satisfy-in-group', 'cylc/flow/commands.py',
     '''                if TaskTokens(cycle=key.point, task=key.task) not in group_ids
            }
            in_flow_prereqs''', '''                if TaskTokens(cycle=key.point, task=key.task) in group_ids
            }
            in_flow_prereqs''', 'C28.off-group'),
    ('no-release-held', 'cylc/flow/commands.py',
     '        schd.pool.release_held_tasks({*active_to_resume, *inactive})\n',
     '', 'C28.remove-order'),
    ('trigger-queued', 'cylc/flow/task_pool.py',
     '''        if not itask.state.is_queued:
            # If not queued now, record the task as ready to run.
            itask.waiting_on_job_prep = True
            self.tasks_to_trigger_now.add(itask)''',
     '''        itask.waiting_on_job_prep = True
        self.tasks_to_trigger_now.add(itask)''', 'C28.queue-or-trigger'),
    ('consume-not-cleared', 'cylc/flow/scheduler.py',
     '                self.pool.tasks_to_trigger_now = set()\n', '',
     'C28.consume'),
    ('consume-only-unpaused', 'cylc/flow/scheduler.py',
     '''            if self.pool.tasks_to_trigger_now:
                # manually triggered tasks to run now.''',
     '''            if self.pool.tasks_to_trigger_now and not self.is_paused:
                # manually triggered tasks to run now.''', 'C28.consume'),
    ('strike-off-after-continue', 'cylc/flow/commands.py',
     '''        inactive.remove(itask.tokens.task)

        if not any(''', '''        if not any(''',
     'C28.active-not-recreated'),
    ('strike-off-only-started', 'cylc/flow/commands.py',
     '''        inactive.remove(itask.tokens.task)

        if not any(''', '''        if itask.state(*TASK_STATUSES_ACTIVE):
            inactive.remove(itask.tokens.task)

        if not any(''', 'C28.active-not-recreated'),
]

"""C09 Task status transitions follow the lifecycle; outputs are monotone."""
import ast

from sa.core import AnalysisError, norm
from sa.consts import known
from sa.pat import AnyOf, StatusIn, StatusNotIn, Env, match, parse_pat
from rules._shared import retry_lined_up_rules

TECHNIQUE = ('static analysis: who-may-write allow-lists (completed-output '
             'map, status field), per-status who-may-set table with guard '
             'atoms over every state_reset(<status>) site, folded constant '
             'tables (implied outputs, status order), guard of the forced '
             'refusal in TaskState.reset')

CLAUSES = (
    'Decided: the completed-output map is written only inside TaskOutputs, is '
    'set False only on registration and True only when currently False, and '
    'is never deleted from; a task\'s outputs object is replaced only at '
    'construction and by sharing on reload; succeeded/failed imply submitted '
    'and started, started implies submitted; each status is set only at its '
    'listed sites under its listed guards (preparing only from job '
    'preparation when not already preparing; submitted only from preparing or '
    'job vacation; failed/submit-failed only when no retry remains; waiting '
    'only by retry, manual trigger, incomplete re-run on flow merge and the '
    'restart/reload loaders; expired only through expire messages sent for '
    'waiting, non-manual, clock-expired tasks or expire triggers); '
    'TaskState.reset refuses forced moves to submitted/running; the ordered '
    'status table lists all eight statuses once. Not decided: reachable '
    'transition sequences under interleavings.')

TEM = 'task_events_mgr'
TP = 'task_pool'
NORETRY_EXEC = AnyOf(
    'forced', '!(TimerFlags.EXECUTION_RETRY in itask.try_timers)',
    'itask.try_timers[TimerFlags.EXECUTION_RETRY].next() is None')
NORETRY_SUB = AnyOf(
    '!(TimerFlags.SUBMISSION_RETRY in itask.try_timers)',
    'itask.try_timers[TimerFlags.SUBMISSION_RETRY].next() is None')


def check(c):
    # ---- monotone outputs
    to = 'task_outputs'
    c.who_writes('C09.monotone', '_completed', {
        (f'{to}:TaskOutputs.__init__', 'assign'),
        (f'{to}:TaskOutputs.add', 'assign'),
        (f'{to}:TaskOutputs.set_message_complete', 'assign'),
    }, floor=3)
    smc = c.func(to, 'TaskOutputs.set_message_complete')
    for s in c.stores(smc, '_completed'):
        c.ob('C09.monotone', c.key(s.node, smc) + ' value True',
             norm(s.value) == 'True', c.where(s.node, smc), '')
        c.guard('C09.monotone', s.node, [
            'message in self._completed',
            'self._completed[message] is False'], smc)
    add = c.func(to, 'TaskOutputs.add')
    for s in c.stores(add, '_completed'):
        c.ob('C09.monotone', c.key(s.node, add) + ' registers as incomplete',
             norm(s.value) == 'False', c.where(s.node, add), '')
    # TaskOutputs.add is not called on live task outputs
    for n in c.calls(None, 'add'):
        if isinstance(n.func, ast.Attribute) and len(n.args) == 2 and (
                'outputs' in norm(n.func.value)
                or norm(n.func.value) == 'self' and c.owner(n) is not None
                and c.owner(n).cls is not None
                and c.owner(n).cls.name == 'TaskOutputs'):
            f = c.owner(n)
            fq = f.fq if f else '<module>'
            ok = fq in (f'{to}:TaskOutputs.__init__', 'scripts.show:'
                        '_task_meta_query', 'scripts.show:prereqs_and_outputs_'
                        'query') or fq.startswith('scripts.show:')
            c.ob('C09.monotone', c.key(n, f) + ' [outputs.add]', ok,
                 c.where(n, f), 'output registration only at construction '
                 '(or on the detached copy used by `cylc show`)')
    outs = [s for s in c.stores(None, 'outputs')
            if 'state' in norm(s.target.value) or (
                c.owner(s.node) is not None and c.owner(s.node).cls is not None
                and c.owner(s.node).cls.name == 'TaskState')]
    c.floor('C09.monotone', 'stores to <task>.state.outputs', len(outs), 2)
    for s in outs:
        f = c.owner(s.node)
        ok = f is not None and (f.fq, norm(s.value)) in {
            ('task_state:TaskState.__init__', 'TaskOutputs(tdef)'),
            ('task_proxy:TaskProxy.copy_to_reload_successor',
             'self.state.outputs')}
        c.ob('C09.monotone', c.key(s.node, f) + ' [outputs object]', ok,
             c.where(s.node, f), '')

    # ---- implied outputs
    gi = c.func(to, 'TaskOutputs.get_incomplete_implied')
    want = [(['submitted', 'started'], "message in ['succeeded', 'failed']"),
            (['submitted'], "message == 'started'")]
    found = 0
    for n in c.idx.walk(gi.node):
        if isinstance(n, ast.Assign) and norm(n.targets[0]) == 'implied' \
                and isinstance(n.value, ast.List) and n.value.elts:
            v = c.fold(n.value)
            for vals, g in want:
                if known(v) and list(v) == vals and c.holds(n, g):
                    found += 1
    c.ob('C09.implied', f'{gi.fq} :: succeeded/failed ⟹ [submitted, started]; '
         'started ⟹ [submitted]', found == 2, c.where(gi.node, gi),
         f'{found}/2 table rows found')
    pm = c.func(TEM, 'TaskEventsManager.process_message')
    c.floor('C09.implied', 'implied-output loop in process_message', len(
        c.find(pm, 'itask.state.outputs.get_incomplete_implied(task_output)')
    ), 1)

    # ---- who may set which status
    table = {
        'preparing': {
            'task_job_mgr:TaskJobManager.prep_submit_task_jobs':
                [StatusNotIn('preparing')]},
        'submitted': {
            f'{TEM}:TaskEventsManager._process_message_submitted':
                ["itask.state.status == 'preparing'"],
            f'{TEM}:TaskEventsManager.process_message':
                ['run_signal is not None',
                 'task_output == VACATION_MESSAGE_PREFIX']},
        'running': {f'{TEM}:TaskEventsManager._process_message_started': []},
        'succeeded': {
            f'{TEM}:TaskEventsManager._process_message_succeeded': []},
        'failed': {
            f'{TEM}:TaskEventsManager._process_message_failed':
                [NORETRY_EXEC]},
        'submit-failed': {
            f'{TEM}:TaskEventsManager._process_message_submit_failed':
                [NORETRY_SUB]},
        'expired': {f'{TEM}:TaskEventsManager._process_message_expired': []},
        'waiting': {
            f'{TEM}:TaskEventsManager._retry_task': [],
            f'{TP}:TaskPool.queue_or_trigger': [],
            f'{TP}:TaskPool.merge_flows': [
                StatusIn('failed', 'succeeded', 'expired', 'submit-failed'),
                '!itask.state.outputs.is_complete()'],
            'data_store_mgr:DataStoreMgr.apply_task_proxy_db_history': []},
    }
    dyn_ok = {f'{TP}:TaskPool.load_db_task_pool_for_restart',
              'data_store_mgr:DataStoreMgr.apply_task_proxy_db_history',
              'task_proxy:TaskProxy.state_reset'}
    sites = c.calls(None, 'state_reset')
    c.floor('C09.status-sites', 'state_reset sites', len(sites), 25)
    seen = set()
    for n in sites:
        f = c.owner(n)
        fq = f.fq if f else '<module>'
        st = None
        if n.args:
            st = n.args[0]
        for k in n.keywords:
            if k.arg == 'status':
                st = k.value
        if st is None:
            continue
        v = c.fold(st) if not isinstance(st, ast.Constant) else st.value
        if not known(v) or not isinstance(v, str):
            c.ob('C09.status-sites', c.key(n, f) + ' [dynamic status]',
                 fq in dyn_ok, c.where(n, f),
                 f'status={norm(st)} (from the database)' if fq in dyn_ok
                 else f'status={norm(st)} is not a constant and {fq} is not '
                 'a loader')
            continue
        allowed = table.get(v, {})
        if fq not in allowed:
            c.ob('C09.status-sites', c.key(n, f) + f' [{v}]', False,
                 c.where(n, f), f'status "{v}" set in {fq}: not among '
                 f'{sorted(allowed)}')
            continue
        seen.add((v, fq))
        if allowed[fq]:
            c.guard('C09.status-sites', n, allowed[fq], f,
                    what=f'"{v}":')
        else:
            c.ob('C09.status-sites', c.key(n, f) + f' [{v}]', True,
                 c.where(n, f), 'listed site')
    for v, d in table.items():
        for fq in d:
            if fq.startswith('data_store_mgr'):
                continue
            c.ob('C09.status-sites', f'mechanism present: "{v}" set in {fq}',
                 (v, fq) in seen, '', '')
    # direct stores to the status field
    sts = [s for s in c.stores(None, 'status') if norm(
        s.target.value) == 'self' and c.owner(s.node) is not None and c.owner(
        s.node).cls is not None and c.owner(s.node).cls.name == 'TaskState'
        or norm(s.target.value).endswith('.state')]
    for s in sts:
        f = c.owner(s.node)
        ok = f is not None and f.fq in ('task_state:TaskState.__init__',
                                        'task_state:TaskState.reset')
        c.ob('C09.status-sites', c.key(s.node, f) + ' [.status store]', ok,
             c.where(s.node, f), '')
    # retry only from the retry branches
    c.who_calls('C09.retry', '_retry_task', {
        f'{TEM}:TaskEventsManager._process_message_failed': [
            '!forced', 'TimerFlags.EXECUTION_RETRY in itask.try_timers',
            '!(itask.try_timers[TimerFlags.EXECUTION_RETRY].next() is None)'],
        f'{TEM}:TaskEventsManager._process_message_submit_failed': [
            'TimerFlags.SUBMISSION_RETRY in itask.try_timers',
            '!(itask.try_timers[TimerFlags.SUBMISSION_RETRY].next() is None)'],
        f'{TP}:TaskPool.load_db_task_action_timers': ['timeout'],
    }, floor=3)
    # expiry
    c.who_calls('C09.expire', '_process_message_expired', {
        f'{TEM}:TaskEventsManager.process_message':
            ['message == self.EVENT_EXPIRED']}, floor=1)
    exp = [n for n in c.calls(None, 'process_message')
           if any(known(c.fold(a)) and c.fold(a) == 'expired' and isinstance(
               a, (ast.Name, ast.Attribute, ast.Constant)) for a in n.args)]
    c.floor('C09.expire', 'senders of the expired message', len(exp), 2)
    for n in exp:
        f = c.owner(n)
        fq = f.fq if f else ''
        if fq == f'{TP}:TaskPool.clock_expire_tasks':
            c.guard('C09.expire', n, [
                '!itask.is_manual_submit', StatusIn('waiting'),
                'itask.clock_expire()'], f)
        elif fq == f'{TP}:TaskPool.spawn_on_output':
            c.guard('C09.expire', n,
                    ['self.config.experimental.expire_triggers'], f)
        elif fq == f'{TEM}:TaskEventsManager.process_message':
            c.ob('C09.expire', c.key(n, f), True, c.where(n, f), 'recursion')
        else:
            c.ob('C09.expire', c.key(n, f), False, c.where(n, f),
                 f'expired message sent from {fq}')
    # ---- forced refusal
    rs = c.func('task_state', 'TaskState.reset')
    for s in c.stores(rs, 'status'):
        c.guard('C09.forced-refusal', s.node, [AnyOf(
            '!forced', "!(status in ['submitted', 'running'])")], rs)
    # the status tested is the one requested (the parameter, before the
    # function re-binds it to the current status for a flag-only reset);
    # a plain alias `req = status` is seen through by the normal form
    tests = c.find(rs, "status in ['submitted', 'running']")
    c.floor('C09.forced-refusal', 'requested-status test', len(tests), 1)
    rebinds = [n for n in c.idx.walk(rs.node) if isinstance(n, ast.Name)
               and n.id == 'status' and isinstance(n.ctx, ast.Store)]
    for t in tests:
        c.ob('C09.forced-refusal', c.key(t, rs) + ' tests the requested '
             'status', all(r.lineno > t.lineno for r in rebinds),
             c.where(t, rs), '')
    sr = c.func('task_proxy', 'TaskProxy.state_reset')
    ok = bool(c.find(sr, 'self.state.reset(status, is_held, is_queued, '
                     'is_runahead, forced)'))
    c.ob('C09.forced-refusal', f'{sr.fq} :: passes forced through', ok,
         c.where(sr.node, sr), '')
    # forced propagation in the handlers
    for h in ('_process_message_started', '_process_message_succeeded',
              '_process_message_expired', '_process_message_failed'):
        f = c.func(TEM, f'TaskEventsManager.{h}')
        for n in c.calls(f, 'state_reset'):
            if n.args and isinstance(c.fold(n.args[0]), str) and c.fold(
                    n.args[0]) != 'waiting':
                kw = {k.arg: norm(k.value) for k in n.keywords}
                c.ob('C09.forced-refusal', c.key(n, f) + ' forced=forced',
                     kw.get('forced') == 'forced', c.where(n, f), '')
    # ---- order table
    m = c.idx.module('task_state')
    order = c.K.name(m, 'TASK_STATUSES_ORDERED')
    eight = {'waiting', 'expired', 'preparing', 'submit-failed', 'submitted',
             'running', 'failed', 'succeeded'}
    c.ob('C09.order-table', 'task_state:TASK_STATUSES_ORDERED lists all 8 '
         'statuses once', known(order) and len(order) == 8 and set(
             order) == eight, '', str(order))
    fin = c.K.name(m, 'TASK_STATUSES_FINAL')
    c.ob('C09.order-table', 'task_state:TASK_STATUSES_FINAL', known(fin)
         and set(fin) == {'failed', 'succeeded', 'expired', 'submit-failed'},
         '', str(fin))
    act = c.K.name(m, 'TASK_STATUSES_ACTIVE')
    c.ob('C09.order-table', 'task_state:TASK_STATUSES_ACTIVE', known(act)
         and set(act) == {'submitted', 'running'}, '', str(act))
    # ---- late messages of a failed job cannot move a waiting retry task
    retry_lined_up_rules(c, 'C09')


VARIANTS = [
    ('uncomplete', 'cylc/flow/task_outputs.py',
     '''        if message in self._completed:
            return self._completed[message]
        return None''',
     '''        if message in self._completed:
            return self._completed.pop(message)
        return None''', 'C09.monotone'),
    ('complete-any', 'cylc/flow/task_outputs.py',
     '        if self._completed[message] is False:\n            # output was',
     '        if not self._completed[message]:\n            # output was',
     'C09.monotone'),
    ('implied-missing-started', 'cylc/flow/task_outputs.py',
     '            implied = [TASK_OUTPUT_SUBMITTED, TASK_OUTPUT_STARTED]',
     '            implied = [TASK_OUTPUT_SUBMITTED]', 'C09.implied'),
    ('submitted-from-any', 'cylc/flow/task_events_mgr.py',
     '        if itask.state.status == TASK_STATUS_PREPARING:\n            # The job started',
     '        if itask.state.status != TASK_STATUS_RUNNING:\n            # The job started',
     'C09.status-sites'),
    ('failed-despite-retry', 'cylc/flow/task_events_mgr.py',
     '''            forced
            or TimerFlags.EXECUTION_RETRY not in itask.try_timers
            or itask.try_timers[TimerFlags.EXECUTION_RETRY].next() is None''',
     '''            forced
            or TimerFlags.EXECUTION_RETRY not in itask.try_timers
            or itask.try_timers[TimerFlags.EXECUTION_RETRY].num > 0''',
     'C09.status-sites'),
    ('new-status-site', 'cylc/flow/task_pool.py',
     '''        if itask.state_reset(is_queued=False):
            self.data_store_mgr.delta_task_state(itask)
            self.task_queue_mgr.remove_task(itask)''',
     '''        if itask.state_reset(TASK_STATUS_WAITING, is_queued=False):
            self.data_store_mgr.delta_task_state(itask)
            self.task_queue_mgr.remove_task(itask)''', 'C09.status-sites'),
    ('forced-running', 'cylc/flow/task_state.py',
     '        if forced and req in [TASK_STATUS_SUBMITTED, TASK_STATUS_RUNNING]:',
     '        if forced and req in [TASK_STATUS_SUBMITTED]:',
     'C09.forced-refusal'),
    ('expire-manual', 'cylc/flow/task_pool.py',
     '''                not itask.is_manual_submit

                # only waiting''', '''                True

                # only waiting''', 'C09.expire'),
    ('expire-any-status', 'cylc/flow/task_pool.py',
     '''                and itask.state(TASK_STATUS_WAITING)

                # check if this task is clock expired''',
     '''                and not itask.state(TASK_STATUS_EXPIRED)

                # check if this task is clock expired''', 'C09.expire'),
    ('drop-forced', 'cylc/flow/task_events_mgr.py',
     '        if itask.state_reset(TASK_STATUS_RUNNING, forced=forced):',
     '        if itask.state_reset(TASK_STATUS_RUNNING):',
     'C09.forced-refusal'),
    ('retry-ignore-polled-only', 'cylc/flow/task_events_mgr.py',
     '''            # Polling in live mode only:
''',
     '''            and flag != self.FLAG_RECEIVED
            # Polling in live mode only:
''', 'C09.retry-lined-up'),
]
